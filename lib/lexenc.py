#!/usr/bin/env python3
"""E2 -- scanner: flex tables -> SMT (DESIGN.md 2.3, property C14).

Everything is regenerated from the repository on every run:
  * FlexTables      : the arrays, constants, action switch and macro texts of a flex-generated lex.yy.c
  * compile_lexer_l : own parser/compiler for the flex subset used by lexer.l  -> DFA over 256 byte values
  * compile_spec    : the same compiler applied to the fixed oracle /verif/spec/tokens.spec
  * SMT-LIB2 (QF_BV) encodings; the verdicts are the answers of z3 and cvc5 (both must agree)
  * native build of the real yylex as encoder validation and for replaying counterexamples
Runs under the system python3: the SMT-LIB2 text is handed to `python3-vt lexenc.py --z3 file` (z3 python bindings; the
z3 4.8 command line binary needs minutes in its front end for the same files) and to the cvc5 binary (eager bit-blasting).
Encoding notes (measured): tables are ROMs = multiplexer trees over the index bits; every intermediate value of an unrolled
step is a declared constant tied by an equation (macros make the solvers expand table lookups into each other); the flex
transition function used by the big queries is the decompressed one, and the query family "decomp" proves it equal to the
unrolled yy_ec/yy_base/yy_chk/yy_def/yy_meta/yy_nxt walk for every state and byte.
Byte 0 is part of the alphabet: flex handles a NUL inside the buffer through yy_try_NUL_trans(), which is what
the model uses for byte 0 (Theo::scan itself can never deliver one: it passes c_str()).
Not modelled: flex buffer management (yy_get_next_buffer, refill, allocation); end of input is modelled as
"yy_find_action on the state reached / back up to the last accepting position" and validated natively.
"""
import itertools, concurrent.futures, hashlib, json, os, re, resource, shutil, subprocess, sys, time
from collections import deque

VERIF = os.path.dirname(os.path.dirname(os.path.abspath(__file__)))
REPO = os.environ.get('VERIF_REPO', '/repo')
SPEC = os.path.join(VERIF, 'spec', 'tokens.spec')


def repo_paths(repo=None):
    repo = repo or os.environ.get('VERIF_REPO', '/repo')
    return {'repo': repo, 'lex_c': os.path.join(repo, 'Compiler', 'src', 'lex.yy.c'),
            'lexer_l': os.path.join(repo, 'Compiler', 'src', 'lexer.l'),
            'token_hpp': os.path.join(repo, 'Compiler', 'include', 'token.hpp')}


class Unsupported(Exception):
    """the artefact uses something the encoder does not model: the run is inconclusive, never a verdict"""


NONE, SKIP, ECHO, EOB = 'NONE', 'SKIP', 'ECHO', 'EOB'

# ------------------------------------------------------------------------------------------------------------
# 1. flex tables
# ------------------------------------------------------------------------------------------------------------

def _nows(s):
    return re.sub(r'\s+', '', s)


def action_kind(body):
    b = body.strip()
    m = re.match(r'^\{\s*TOK\(\s*Theo::Token::Type::(\w+)\s*\)\s*;?\s*\}$', b)
    if m:
        return m.group(1)
    if re.match(r'^\{\s*\}$', b) or b in ('', ';'):
        return SKIP
    if re.match(r'^ECHO\s*;$', b):
        return ECHO
    return 'ACTION<' + _nows(b)[:60] + '>'


LOOP_BODY = (r'YY_CHARyy_c=yy_ec\[YY_SC_TO_UI\(\*yy_cp\)\];if\(yy_accept\[yy_current_state\]\)\{yyg->yy_last_accepting_state=yy_current_state;'
             r'yyg->yy_last_accepting_cpos=yy_cp;\}while\(yy_chk\[yy_base\[yy_current_state\]\+yy_c\]!=yy_current_state\)\{'
             r'yy_current_state=\(int\)yy_def\[yy_current_state\];if\(yy_current_state>=(\d+)\)yy_c=yy_meta\[yy_c\];\}'
             r'yy_current_state=yy_nxt\[yy_base\[yy_current_state\]\+yy_c\];\+\+yy_cp;')
LINENO_BLOCK = (r"if\(yy_act!=YY_END_OF_BUFFER&&yy_rule_can_match_eol\[yy_act\]\)\{intyyl;for\(yyl=0;yyl<yyleng;\+\+yyl\)"
                r"if\(yytext\[yyl\]=='\\n'\)do\{yylineno\+\+;yycolumn=0;\}while\(0\);\}")


class FlexTables:
    """tables + driver constants of one generated scanner; step() mirrors the body of the matching loop"""

    def __init__(self, path):
        self.path = path
        src = open(path, encoding='latin-1').read()
        self.sha = hashlib.sha256(src.encode('latin-1')).hexdigest()[:16]

        def arr(name, required=True):
            m = re.search(r'static\s+const\s+\w+\s+%s\[(\d+)\]\s*=\s*\{(.*?)\}\s*;' % name, src, re.S)
            if not m:
                if required:
                    raise Unsupported('%s: table %s not found' % (path, name))
                return None
            v = [int(x) for x in re.findall(r'-?\d+', m.group(2))]
            if len(v) != int(m.group(1)):
                raise Unsupported('%s: table %s has %d entries, declared %s' % (path, name, len(v), m.group(1)))
            return v
        self.ec = arr('yy_ec'); self.accept = arr('yy_accept'); self.base = arr('yy_base'); self.def_ = arr('yy_def')
        self.nxt = arr('yy_nxt'); self.chk = arr('yy_chk'); self.meta = arr('yy_meta')
        self.eol = arr('yy_rule_can_match_eol', required=False)
        m = re.search(r'#define YY_NUM_RULES (\d+)', src); m2 = re.search(r'#define YY_END_OF_BUFFER (\d+)', src)
        if not m or not m2:
            raise Unsupported('YY_NUM_RULES / YY_END_OF_BUFFER not found')
        self.num_rules = int(m.group(1)); self.eob = int(m2.group(1))
        if len(self.ec) != 256:
            raise Unsupported('yy_ec is not a 256-entry table')
        # the scanner function
        m = re.search(r'\nYY_DECL\s*\{(.*?)\n\} /\* end of yylex \*/', src, re.S)
        if not m:
            raise Unsupported('body of YY_DECL not found')
        body = m.group(1)
        m = re.search(r'yy_current_state\s*=\s*yyg->yy_start;\s*yy_match:\s*do\s*\{(.*?)\}\s*while\s*\(\s*(yy_current_state|yy_base\[\s*yy_current_state\s*\])\s*!=\s*(\d+)\s*\)\s*;(.*?)yy_find_action:\s*yy_act\s*=\s*yy_accept\[yy_current_state\];(.*?)do_action:', body, re.S)
        if not m:
            raise Unsupported('matching loop of yylex not recognised (start conditions with ^ rules, REJECT, or another skeleton)')
        if m.group(2) != 'yy_current_state':
            raise Unsupported('interactive skeleton variant (loop ends on yy_base[state]) is not modelled')
        self.jam = int(m.group(3))
        mb = re.fullmatch(LOOP_BODY, _nows(m.group(1)))
        if not mb:
            raise Unsupported('body of the matching loop differs from the modelled skeleton: ' + _nows(m.group(1))[:200])
        self.thresh = int(mb.group(1))
        if _nows(m.group(4)) != 'yy_cp=yyg->yy_last_accepting_cpos;yy_current_state=yyg->yy_last_accepting_state;':
            raise Unsupported('back-up after the matching loop differs from the modelled skeleton')
        pre = _nows(m.group(5))
        if not pre.startswith('YY_DO_BEFORE_ACTION;'):
            raise Unsupported('YY_DO_BEFORE_ACTION not where expected')
        rest = pre[len('YY_DO_BEFORE_ACTION;'):]
        if rest == '':
            self.lineno_loop = False
        elif re.fullmatch(LINENO_BLOCK, rest):
            self.lineno_loop = True
        else:
            raise Unsupported('code between yy_find_action and do_action not recognised: ' + rest[:200])
        if self.lineno_loop and self.eol is None:
            raise Unsupported('yylineno loop present without yy_rule_can_match_eol')
        if not re.search(r'if\s*\(\s*!\s*yyg->yy_start\s*\)\s*yyg->yy_start\s*=\s*1\s*;', body):
            raise Unsupported('initial yy_start is not 1')
        self.start = 1
        if 'YY_AT_BOL()' in m.group(0):
            raise Unsupported('beginning-of-line start states are not modelled')
        if not re.search(r'#define REJECT reject_used_but_not_detected', src) or not re.search(r'#define yymore\(\) yymore_used_but_not_detected', src):
            raise Unsupported('REJECT / yymore in use')
        m = re.search(r'static\s+yy_state_type\s+yy_try_NUL_trans\s*\([^;{]*\)\s*\{(.*?)\n\}', src, re.S)
        if not m:
            raise Unsupported('yy_try_NUL_trans not found')
        t = _nows(m.group(1))
        m1 = re.search(r'YY_CHARyy_c=(\d+);', t); m2 = re.search(r'yy_is_jam=\(yy_current_state==(\d+)\);', t)
        if not m1 or not m2 or int(m2.group(1)) != self.jam:
            raise Unsupported('yy_try_NUL_trans not recognised')
        self.nul_ec = int(m1.group(1))
        # actions
        m = re.search(r'do_action:.*?switch\s*\(\s*yy_act\s*\)(.*?)case YY_STATE_EOF\(INITIAL\):', body, re.S)
        if not m:
            raise Unsupported('action switch not found (start conditions?)')
        region = m.group(1)
        self.actions = {0: NONE, self.eob: EOB}
        self.action_text = {}
        for a in re.finditer(r'case (\d+):\s*(?:/\*[^*]*\*/\s*)?YY_RULE_SETUP\s*(.*?)\s*YY_BREAK', region, re.S):
            self.actions[int(a.group(1))] = action_kind(a.group(2)); self.action_text[int(a.group(1))] = a.group(2).strip()
        for r in range(1, self.num_rules + 1):
            if r not in self.actions:
                raise Unsupported('no action found for rule %d' % r)
        for r, tx in self.action_text.items():
            if re.search(r'\b(BEGIN|yyless|unput|input|yy_push_state|yy_pop_state|yyterminate)\b', tx):
                raise Unsupported('action of rule %d changes the scanner state: %s' % (r, tx[:80]))
        m = re.search(r'^#define TOK\(t\)\s*(.*)$', src, re.M); self.tok_macro = m.group(1).strip() if m else None
        m = re.search(r'^#define YY_DECL\s+(.*)$', src, re.M); self.yy_decl = m.group(1).strip() if m else None
        self.nstates = len(self.accept)            # real states 0..nstates-1 ; jam is the last one
        if self.jam != self.nstates - 1 or len(self.base) < self.nstates or len(self.def_) != len(self.base) or len(self.nxt) != len(self.chk):
            raise Unsupported('table sizes inconsistent (jam %d, accept %d, base %d)' % (self.jam, len(self.accept), len(self.base)))
        self.dead = self.jam
        self.name = 'flex:' + os.path.basename(os.path.dirname(path)) + '/' + os.path.basename(path)
        self._cache = {}
        self.chain = 0

    def same_tables(self, o):
        return all(getattr(self, k) == getattr(o, k) for k in ('ec', 'accept', 'base', 'def_', 'nxt', 'chk', 'meta', 'eol', 'num_rules', 'eob',
                                                              'jam', 'thresh', 'nul_ec', 'actions', 'lineno_loop'))

    def step(self, s, c):
        if s == self.jam:
            return s
        k = (s, c)
        r = self._cache.get(k)
        if r is not None:
            return r
        yc = self.ec[c] if c else self.nul_ec
        n = 0
        while True:
            i = self.base[s] + yc
            if not (0 <= i < len(self.chk)):
                raise Unsupported('table index out of range at state %d byte %d' % (k[0], c))
            if self.chk[i] == s:
                break
            s = self.def_[s]
            if s >= self.thresh:
                yc = self.meta[yc]
            n += 1
            if n > 64 or not (0 <= s < len(self.base)):
                raise Unsupported('default chain does not terminate at state %d byte %d' % (k[0], c))
        self.chain = max(self.chain, n)
        r = self.nxt[i]
        if not (0 < r < self.nstates):
            raise Unsupported('successor %d out of range at state %d byte %d' % (r, k[0], c))
        self._cache[k] = r
        return r

    def rule(self, s):
        return self.accept[s]

    def kind(self, s):
        return self.actions.get(self.accept[s], NONE)

    def states(self):
        return range(1, self.nstates)

    def max_chain(self):
        for s in range(1, self.jam):
            for c in range(256):
                self.step(s, c)
        return self.chain


def flex_tokens(T, data):
    """concrete model of the yylex driver loop over the tables: [(kind, text, line)], SKIP rules produce nothing"""
    pos = 0; lineno = 1; out = []
    while pos < len(data):
        s = T.start; i = pos; la_s = None; la_p = None
        while True:
            if T.accept[s]:
                la_s, la_p = s, i
            if i == len(data):
                break                       # end of buffer: yy_find_action on this state, else back up
            s = T.step(s, data[i]); i += 1
            if s == T.jam:
                break
        if la_s is None or la_p == pos:
            out.append(('NO_MATCH', bytes(data[pos:pos + 1]), lineno)); break
        act = T.accept[la_s]; text = bytes(data[pos:la_p])
        if T.lineno_loop and T.eol[act]:
            lineno += text.count(b'\n')
        pos = la_p
        kind = T.actions.get(act, NONE)
        if kind == SKIP:
            continue
        out.append((kind, text, lineno))
    return out

# ------------------------------------------------------------------------------------------------------------
# 2. regular expressions (flex subset) -> NFA -> DFA
# ------------------------------------------------------------------------------------------------------------

ALL = (1 << 256) - 1
ESC = {'n': 10, 't': 9, 'r': 13, 'f': 12, 'v': 11, 'a': 7, 'b': 8}


class RegexParser:
    def __init__(self, text, defs, where='', toplevel_flex=False):
        # toplevel_flex: the text is a whole flex rule pattern, where a leading < or ^ and a final $ are not literals
        self.t = text; self.i = 0; self.defs = defs; self.where = where; self.top = toplevel_flex

    def err(self, msg):
        raise Unsupported('%s: %s in pattern %r at %d' % (self.where, msg, self.t, self.i))

    def peek(self):
        return self.t[self.i] if self.i < len(self.t) else None

    def parse(self):
        r = self.alt()
        if self.i != len(self.t):
            self.err('unexpected %r' % self.peek())
        return r

    def alt(self):
        xs = [self.seq()]
        while self.peek() == '|':
            self.i += 1; xs.append(self.seq())
        return xs[0] if len(xs) == 1 else ('alt', xs)

    def seq(self):
        xs = []
        while self.peek() is not None and self.peek() not in '|)':
            xs.append(self.postfix())
        if not xs:
            return ('cat', [])
        return xs[0] if len(xs) == 1 else ('cat', xs)

    def postfix(self):
        a = self.atom()
        while self.peek() is not None and self.peek() in '*+?{':
            ch = self.peek()
            if ch == '{':
                if re.match(r'\{\d', self.t[self.i:]):
                    self.err('counted repetition is not supported')
                break
            self.i += 1
            a = ({'*': 'star', '+': 'plus', '?': 'opt'}[ch], a)
        return a

    def escape(self):
        # after a backslash
        ch = self.peek()
        if ch is None:
            self.err('dangling backslash')
        if ch in '01234567':
            m = re.match(r'[0-7]{1,3}', self.t[self.i:]); self.i += len(m.group(0)); return int(m.group(0), 8) & 255
        if ch == 'x' and re.match(r'x[0-9a-fA-F]{1,2}', self.t[self.i:]):
            m = re.match(r'x([0-9a-fA-F]{1,2})', self.t[self.i:]); self.i += len(m.group(0)); return int(m.group(1), 16)
        self.i += 1
        return ESC.get(ch, ord(ch))

    def atom(self):
        ch = self.peek()
        if ch == '(':
            if self.t[self.i:self.i + 2] == '(?':
                self.err('(?...) groups are not supported')
            self.i += 1; r = self.alt()
            if self.peek() != ')':
                self.err('missing )')
            self.i += 1; return r
        if ch == '[':
            return self.cclass()
        if ch == '"':
            self.i += 1; xs = []
            while self.peek() != '"':
                if self.peek() is None:
                    self.err('unterminated quote')
                if self.peek() == '\\':
                    self.i += 1; xs.append(('set', 1 << self.escape()))
                else:
                    xs.append(('set', 1 << ord(self.peek()))); self.i += 1
            self.i += 1
            return ('cat', xs)
        if ch == '\\':
            self.i += 1; return ('set', 1 << self.escape())
        if ch == '.':
            self.i += 1; return ('set', ALL & ~(1 << 10))
        if ch == '{':
            m = re.match(r'\{([A-Za-z_][\w-]*)\}', self.t[self.i:])
            if not m or m.group(1) not in self.defs:
                self.err('unknown definition')
            self.i += len(m.group(0))
            return RegexParser(self.defs[m.group(1)], self.defs, self.where + '{' + m.group(1) + '}').parse()
        if ch == '/' or (self.top and ((ch in '^<' and self.i == 0) or (ch == '$' and self.i == len(self.t) - 1))):
            self.err('anchors, trailing context and start conditions are not supported')
        if ord(ch) > 255 or ch in ' \t':
            self.err('unexpected character')
        self.i += 1
        return ('set', 1 << ord(ch))

    def cclass(self):
        self.i += 1; neg = False; m = 0
        if self.peek() == '^':
            neg = True; self.i += 1
        first = True
        while True:
            ch = self.peek()
            if ch is None:
                self.err('unterminated class')
            if ch == ']' and not first:
                self.i += 1; break
            first = False
            if ch == '[' and self.t[self.i:self.i + 2] == '[:':
                self.err('[:class:] expressions are not supported')
            if ch == '\\':
                self.i += 1; lo = self.escape()
            else:
                lo = ord(ch); self.i += 1
            if self.peek() == '-' and self.i + 1 < len(self.t) and self.t[self.i + 1] != ']':
                self.i += 1
                if self.peek() == '\\':
                    self.i += 1; hi = self.escape()
                else:
                    hi = ord(self.peek()); self.i += 1
                if hi < lo:
                    self.err('negative range')
                for c in range(lo, hi + 1):
                    m |= 1 << c
            else:
                m |= 1 << lo
        return ('set', (ALL & ~m) if neg else m)


class DFA:
    """total DFA over bytes 0..255; state 0 = dead (no rule can match any more), state 1 = start"""
    pass


def build_dfa(rules, name):
    """rules: [(ast, kind, text)] in priority order -> DFA (longest match is the driver's job; ties: earliest rule)"""
    eps = [[]]; tr = [[]]; acc = {}

    def new():
        eps.append([]); tr.append([]); return len(eps) - 1

    def frag(a):
        k = a[0]
        if k == 'set':
            s, e = new(), new(); tr[s].append((a[1], e)); return s, e
        if k == 'cat':
            s = new(); cur = s
            for x in a[1]:
                xs, xe = frag(x); eps[cur].append(xs); cur = xe
            return s, cur
        if k == 'alt':
            s, e = new(), new()
            for x in a[1]:
                xs, xe = frag(x); eps[s].append(xs); eps[xe].append(e)
            return s, e
        xs, xe = frag(a[1]); s, e = new(), new(); eps[s].append(xs); eps[xe].append(e)
        if k in ('star', 'opt'):
            eps[s].append(e)
        if k in ('star', 'plus'):
            eps[xe].append(xs)
        return s, e
    sys.setrecursionlimit(10000)
    for idx, (ast, kind, text) in enumerate(rules, 1):
        s, e = frag(ast); eps[0].append(s); acc[e] = idx
    masks = sorted({m for t in tr for (m, _) in t})
    sig = {}; cls = []; reps = []
    for c in range(256):
        k = tuple((m >> c) & 1 for m in masks)
        if k not in sig:
            sig[k] = len(reps); reps.append(c)
        cls.append(sig[k])

    def closure(S):
        st = list(S); seen = set(S)
        while st:
            x = st.pop()
            for y in eps[x]:
                if y not in seen:
                    seen.add(y); st.append(y)
        return frozenset(seen)
    d = DFA(); d.name = name; d.rules = rules
    start = closure([0])
    index = {frozenset(): 0, start: 1}; order = [frozenset(), start]; rows = [[0] * len(reps)]
    q = deque([start])
    while q:
        S = q.popleft(); row = []
        for c in reps:
            T = set()
            for x in S:
                for (m, y) in tr[x]:
                    if (m >> c) & 1:
                        T.add(y)
            T = closure(T) if T else frozenset()
            if T not in index:
                index[T] = len(order); order.append(T); q.append(T)
            row.append(index[T])
        rows.append(None); rows[index[S]] = row
    d.n = len(order); d.start = 1; d.dead = 0
    d.delta = [[rows[s][cls[c]] for c in range(256)] for s in range(d.n)]
    d.acc_rule = [min([acc[x] for x in S if x in acc], default=0) for S in order]
    d.acc_mask = [sum(1 << r for r in {acc[x] for x in S if x in acc}) for S in order]
    d.rule_kind = [NONE] + [k for (_, k, _) in rules]
    # trim: states from which no accepting state is reachable behave like the dead state
    co = {s for s in range(d.n) if d.acc_rule[s]}
    changed = True
    while changed:
        changed = False
        for s in range(d.n):
            if s not in co and any(t in co for t in d.delta[s]):
                co.add(s); changed = True
    ren = {s: (s if s in co else 0) for s in range(d.n)}
    d.delta = [[ren[t] for t in row] for row in d.delta]
    d.delta[0] = [0] * 256
    if d.acc_rule[1]:
        raise Unsupported('%s: a rule matches the empty string' % name)
    return d


def _dfa_methods():
    def step(self, s, c): return self.delta[s][c]
    def rule(self, s): return self.acc_rule[s]
    def kind(self, s): return self.rule_kind[self.acc_rule[s]]
    def states(self): return range(self.n)
    DFA.step = step; DFA.rule = rule; DFA.kind = kind; DFA.states = states
_dfa_methods()


def split_pattern(line, where):
    """a flex rule line -> (pattern, rest): the pattern ends at the first blank outside quotes / classes / escapes"""
    i = 0; inq = False; inb = False
    while i < len(line):
        ch = line[i]
        if ch == '\\':
            i += 2; continue
        if inq:
            inq = ch != '"'
        elif inb:
            inb = ch != ']'
        elif ch == '"':
            inq = True
        elif ch == '[':
            inb = True
            if line[i + 1:i + 2] == '^':
                i += 1
            if line[i + 1:i + 2] == ']':
                i += 1
        elif ch in ' \t':
            break
        i += 1
    return line[:i], line[i:].strip()


def compile_lexer_l(path):
    src = open(path, encoding='latin-1').read()
    lines = src.split('\n')
    seps = [i for i, l in enumerate(lines) if l.rstrip() == '%%']
    if not seps:
        raise Unsupported('lexer.l: no %% separator')
    sec1 = lines[:seps[0]]; sec2 = lines[seps[0] + 1:(seps[1] if len(seps) > 1 else len(lines))]
    defs = {}; options = []; incode = False; prologue = []
    for l in sec1:
        if l.startswith('%{'):
            incode = True; continue
        if l.startswith('%}'):
            incode = False; continue
        if incode:
            prologue.append(l); continue
        if not l.strip() or l[0] in ' \t':
            continue
        if l.startswith('%option'):
            options += l.split()[1:]; continue
        if l.startswith('%'):
            raise Unsupported('lexer.l: directive not supported: ' + l)
        m = re.match(r'^([A-Za-z_][\w-]*)\s+(.*?)\s*$', l)
        if not m:
            raise Unsupported('lexer.l: definition not understood: ' + l)
        defs[m.group(1)] = m.group(2)
    for o in options:
        if re.match(r'(case-insensitive|caseless|7bit|ecs-|stack|reject|yymore|interactive|always-interactive)', o):
            raise Unsupported('lexer.l: option not modelled: ' + o)
    rules = []
    for n, l in enumerate(sec2):
        if not l.strip():
            continue
        if l[0] in ' \t' or l.startswith('%{') or l.startswith('%}'):
            raise Unsupported('lexer.l: code line in the rules section: ' + l)
        pat, act = split_pattern(l, 'lexer.l rule %d' % (len(rules) + 1))
        if act == '|':
            raise Unsupported('lexer.l: | actions are not supported')
        ast = RegexParser(pat, defs, 'lexer.l rule %d' % (len(rules) + 1), toplevel_flex=True).parse()
        rules.append((ast, action_kind(act), pat))
    d = build_dfa(rules, 'lexer.l')
    d.options = options; d.defs = defs
    d.tok_macro = next((re.sub(r'^#define TOK\(t\)\s*', '', p).strip() for p in prologue if p.startswith('#define TOK(t)')), None)
    d.yy_decl = next((re.sub(r'^#define YY_DECL\s+', '', p).strip() for p in prologue if p.startswith('#define YY_DECL')), None)
    d.sha = hashlib.sha256(src.encode('latin-1')).hexdigest()[:16]
    return d


def compile_spec(path=SPEC):
    defs = {}; rules = []
    for n, l in enumerate(open(path, encoding='latin-1').read().split('\n'), 1):
        if not l.strip() or l.startswith('# ') or l.rstrip() == '#':
            continue
        m = re.match(r'^%def\s+([A-Za-z_]\w*)\s+(.*?)\s*$', l)
        if m:
            defs[m.group(1)] = m.group(2); continue
        m = re.match(r'^([A-Z_][A-Z_0-9]*)\s+(.*?)\s*$', l)
        if not m:
            raise Unsupported('tokens.spec line %d not understood' % n)
        pat, rest = split_pattern(m.group(2), 'tokens.spec line %d' % n)
        if rest:
            raise Unsupported('tokens.spec line %d: trailing text' % n)
        rules.append((RegexParser(pat, defs, 'tokens.spec line %d' % n).parse(), m.group(1), pat))
    d = build_dfa(rules, 'tokens.spec')
    d.sha = hashlib.sha256(open(path, 'rb').read()).hexdigest()[:16]
    return d


def ref_tokens(D, data):
    """declarative maximal munch on a reference DFA: longest non-empty prefix matched by any rule, earliest rule on ties;
    line = 1 + number of newlines up to and including the token's last byte"""
    pos = 0; out = []
    while pos < len(data):
        s = D.start; best = None
        for j in range(pos, len(data)):
            s = D.step(s, data[j])
            if s == D.dead:
                break
            if D.rule(s):
                best = (j + 1, D.kind(s))
        if best is None:
            out.append(('NO_MATCH', bytes(data[pos:pos + 1]), 1 + bytes(data[:pos + 1]).count(b'\n'))); break
        end, kind = best
        if kind != SKIP:
            out.append((kind, bytes(data[pos:end]), 1 + bytes(data[:end]).count(b'\n')))
        pos = end
    return out

# ------------------------------------------------------------------------------------------------------------
# 3. SMT-LIB2 encodings (QF_BV)
# ------------------------------------------------------------------------------------------------------------

SW = 12      # width of states / table indexes
KW = 8       # width of token kinds
LW = 16      # width of line counters


def bv(v, w):
    assert 0 <= v < (1 << w), (v, w)
    return '(_ bv%d %d)' % (v, w)


def S(v):
    return bv(v, SW)


def _runs(values, size, default):
    """values: list (dense, from index 0) or dict (sparse) -> [(start, value)] covering [0, size)"""
    runs = []
    if isinstance(values, dict):
        prev = -1
        for k in sorted(values):
            if k != prev + 1:
                runs.append((prev + 1, default))
            runs.append((k, values[k])); prev = k
        if prev + 1 < size:
            runs.append((prev + 1, default))
    else:
        for i, v in enumerate(values):
            runs.append((i, v))
        if len(values) < size:
            runs.append((len(values), default))
    out = []
    for st, v in runs:
        if not out or out[-1][1] != v:
            out.append((st, v))
    return out


def table_fun(name, iw, vw, values, default=None):
    """(define-fun name ((i BV iw)) BV vw ...): a ROM as a multiplexer tree over the index bits (most significant first);
    index ranges holding a single value collapse into a leaf"""
    import bisect
    default = (1 << vw) - 1 if default is None else default
    runs = _runs(values, 1 << iw, default)
    starts = [r[0] for r in runs]

    def tree(base, k):
        r = bisect.bisect_right(starts, base) - 1
        if r + 1 >= len(runs) or runs[r + 1][0] >= base + (1 << k):
            return bv(runs[r][1], vw)
        return '(ite (= ((_ extract %d %d) i) #b1) %s %s)' % (k - 1, k - 1, tree(base + (1 << (k - 1)), k - 1), tree(base, k - 1))
    return '(define-fun %s ((i (_ BitVec %d))) (_ BitVec %d) %s)' % (name, iw, vw, tree(0, iw))


class Names:
    """named shared subterms: (define-fun n () sort expr) -- keeps the unrolled formulas linear in size"""
    def __init__(self):
        self.lines = []; self.n = 0

    def let(self, sort, expr, hint='t'):
        self.n += 1
        nm = '%s_%d' % (hint, self.n)
        # a declared constant tied by an equation (not a macro): keeps nested table lookups from being expanded into
        # each other by the solvers' rewriters
        self.lines.append('(declare-const %s %s) (assert (= %s %s))' % (nm, sort, nm, expr))
        return nm

    def bvs(self, expr, hint='t'):
        return self.let('(_ BitVec %d)' % SW, expr, hint)

    def bool(self, expr, hint='b'):
        return self.let('Bool', expr, hint)

    def raw(self, line):
        self.lines.append(line)


def AND(*xs):
    xs = [x for x in xs if x != 'true']
    return 'true' if not xs else xs[0] if len(xs) == 1 else '(and %s)' % ' '.join(xs)


def OR(*xs):
    xs = [x for x in xs if x != 'false']
    return 'false' if not xs else xs[0] if len(xs) == 1 else '(or %s)' % ' '.join(xs)


class KindIds:
    def __init__(self):
        self.ids = {NONE: 0, SKIP: 1, ECHO: 2, EOB: 3}

    def add(self, names):
        for k in sorted(set(names)):
            if k not in self.ids:
                self.ids[k] = len(self.ids)
        assert len(self.ids) < (1 << KW)

    def name(self, i):
        return next((k for k, v in self.ids.items() if v == i), '?%d' % i)


class FlexSMT:
    """the raw flex tables as SMT lookup functions; one scanner step = the unrolled default-chain loop, so the
    decompression of the tables is done by the solver, not by python"""

    def __init__(self, T, prefix, kinds):
        self.T = T; self.p = prefix; self.kinds = kinds
        self.K = T.max_chain() + 1          # unrolling depth; "the loop has ended after K rounds" is a proof obligation
        self.start = S(T.start); self.deadc = S(T.jam)
        need = max(len(T.nxt) + max(T.ec + T.meta + [T.nul_ec]) + 2, len(T.base) + 2, T.eob + 2)
        if need >= (1 << (SW - 1)):
            raise Unsupported('tables too large for the %d-bit encoding' % SW)

    def defs(self):
        T, p = self.T, self.p
        eol = (T.eol if (T.eol is not None and T.lineno_loop) else [0] * (T.num_rules + 1))
        rk = [self.kinds.ids[T.actions.get(r, NONE)] for r in range(T.eob + 1)]
        return [';; tables of ' + T.path,
                table_fun(p + '_ec', 8, SW, T.ec), table_fun(p + '_base', SW, SW, T.base), table_fun(p + '_def', SW, SW, T.def_),
                table_fun(p + '_nxt', SW, SW, T.nxt), table_fun(p + '_chk', SW, SW, T.chk), table_fun(p + '_meta', SW, SW, T.meta),
                table_fun(p + '_accept', SW, SW, T.accept, default=0), table_fun(p + '_eol', SW, SW, eol, default=0),
                table_fun(p + '_rulekind', SW, KW, rk, default=0),
                '(define-fun %s_kind ((s (_ BitVec %d))) (_ BitVec %d) (%s_rulekind (%s_accept s)))' % (p, SW, KW, p, p),
                '(define-fun %s_dead ((s (_ BitVec %d))) Bool (= s %s))' % (p, SW, self.deadc),
                ';; decompressed transition function (python); proved equal to the unrolled table walk by the query "decomp"',
                table_fun(p + '_flat', SW + 8, SW, {(s << 8) | c: T.step(s, c) for s in range(1, T.nstates) for c in range(256)}),
                '(define-fun %s_delta ((s (_ BitVec %d)) (c (_ BitVec 8))) (_ BitVec %d) (%s_flat (concat s c)))' % (p, SW, SW, p)]

    use_flat = True

    def step(self, N, s, c, tag):
        if not self.use_flat:
            return self.raw_step(N, s, c, tag)
        return N.bvs('(%s_delta %s %s)' % (self.p, s, c), tag + 'n'), 'true'

    def raw_step(self, N, s, c, tag):
        """the matching-loop body on the raw tables -> (next state term, Bool term 'the default-chain loop ended within K rounds
        and every index was inside its table')"""
        T, p = self.T, self.p
        y = N.bvs('(ite (= %s #x00) %s (%s_ec %s))' % (c, S(T.nul_ec), p, c), tag + 'y')
        cur = s; oks = []
        for k in range(self.K + 1):
            idx = N.bvs('(bvadd (%s_base %s) %s)' % (p, cur, y), tag + 'i')
            hit = N.bool('(= (%s_chk %s) %s)' % (p, idx, cur), tag + 'h')
            oks.append('(bvult %s %s)' % (idx, S(len(T.nxt)))); oks.append('(bvult %s %s)' % (cur, S(len(T.base))))
            oks.append('(bvult %s %s)' % (y, S(len(T.meta))))
            if k == self.K:
                oks.append(hit); break
            d = N.bvs('(%s_def %s)' % (p, cur), tag + 'd')
            ny = N.bvs('(ite %s %s (ite (bvuge %s %s) (%s_meta %s) %s))' % (hit, y, d, S(T.thresh), p, y, y), tag + 'y')
            cur = N.bvs('(ite %s %s %s)' % (hit, cur, d), tag + 's'); y = ny
        raw = N.bvs('(%s_nxt %s)' % (p, idx), tag + 'r')
        oks.append('(bvult %s %s)' % (raw, S(T.nstates))); oks.append('(distinct %s %s)' % (raw, S(0)))
        nxt = N.bvs('(ite (= %s %s) %s %s)' % (s, self.deadc, self.deadc, raw), tag + 'n')
        ok = N.bool(OR('(= %s %s)' % (s, self.deadc), AND(*oks)), tag + 'ok')
        return nxt, ok

    def kind(self, s):
        return '(%s_kind %s)' % (self.p, s)

    def dead(self, s):
        return '(%s_dead %s)' % (self.p, s)

    def valid(self, s):
        return '(and (bvuge %s %s) (bvult %s %s))' % (s, S(1), s, S(self.T.nstates))

    # python twins used for the candidate relations and for turning solver witnesses into strings
    def py_step(self, s, c): return self.T.step(s, c)
    def py_kind(self, s): return self.T.kind(s)
    def py_dead(self, s): return s == self.T.jam
    py_start = property(lambda self: self.T.start)


class RefSMT:
    """a DFA compiled from lexer.l / tokens.spec as SMT lookup functions"""

    def __init__(self, D, prefix, kinds):
        self.D = D; self.p = prefix; self.kinds = kinds
        if D.n >= (1 << (SW - 1)):
            raise Unsupported('DFA too large for the %d-bit encoding' % SW)
        self.start = S(D.start); self.deadc = S(D.dead)

    def defs(self):
        D, p = self.D, self.p
        flat = [t for row in D.delta for t in row]
        nr = len(D.rules) + 1
        out = [';; DFA compiled from ' + D.name,
               table_fun(p + '_flat', SW + 8, SW, flat, default=D.dead),
               '(define-fun %s_delta ((s (_ BitVec %d)) (c (_ BitVec 8))) (_ BitVec %d) (%s_flat (concat s c)))' % (p, SW, SW, p),
               table_fun(p + '_rule', SW, SW, D.acc_rule, default=0),
               table_fun(p + '_kind', SW, KW, [self.kinds.ids[D.rule_kind[r]] for r in D.acc_rule], default=0),
               table_fun(p + '_accmask', SW, nr, D.acc_mask, default=0),
               '(define-fun %s_dead ((s (_ BitVec %d))) Bool (= s %s))' % (p, SW, self.deadc)]
        return out

    def step(self, N, s, c, tag):
        return N.bvs('(%s_delta %s %s)' % (self.p, s, c), tag + 'n'), 'true'

    def kind(self, s):
        return '(%s_kind %s)' % (self.p, s)

    def dead(self, s):
        return '(%s_dead %s)' % (self.p, s)

    def valid(self, s):
        return '(bvult %s %s)' % (s, S(self.D.n))

    def py_step(self, s, c): return self.D.delta[s][c]
    def py_kind(self, s): return self.D.kind(s)
    def py_dead(self, s): return s == self.D.dead
    py_start = property(lambda self: self.D.start)


def relation_fun(name, pairs, wa, wb):
    """membership predicate of a finite set of pairs, as a lookup over concat(a,b)"""
    d = {(a << wb) | b: 1 for (a, b) in pairs}
    return [table_fun(name + '_flat', wa + wb, 1, d, default=0),
            '(define-fun %s ((a (_ BitVec %d)) (b (_ BitVec %d))) Bool (= (%s_flat (concat a b)) #b1))' % (name, wa, wb, name)]


HEADER = ['(set-logic QF_BV)']


class Query:
    def __init__(self, name, lines, expect, values=(), what='', bound='', meta=None):
        self.name = name; self.lines = lines; self.expect = expect; self.values = list(values); self.what = what; self.bound = bound
        self.meta = meta or {}; self.answers = {}; self.wall = {}; self.model = None; self.log = {}

    def text(self):
        return '\n'.join(HEADER + self.lines + ['(check-sat)']) + '\n'


# exploration order of the byte values: printable ASCII first, NUL last, so that witness strings are readable and in scope
BYTE_ORDER = list(range(32, 127)) + [10, 9, 13] + [c for c in range(1, 256) if not (32 <= c < 127) and c not in (9, 10, 13)] + [0]


def cstr_view(toks, data):
    """TOK builds the text with std::string(yytext): for an input containing NUL the text stops at the first NUL of the match"""
    if 0 not in bytes(data):
        return toks
    return [(k, t.split(b'\0')[0], l) for (k, t, l) in toks]


def product_relation(A, B, limit=400000):
    """candidate invariant: the reachable part of the product automaton (python exploration; NOT the verdict)"""
    start = (A.py_start, B.py_start); seen = {start: None}; q = deque([start])
    while q:
        p, r = q.popleft()
        for c in BYTE_ORDER:
            n = (A.py_step(p, c), B.py_step(r, c))
            if n not in seen:
                seen[n] = ((p, r), c); q.append(n)
                if len(seen) > limit:
                    raise Unsupported('product automaton larger than %d states' % limit)
    return seen


def path_to(seen, pair):
    out = []
    while seen.get(pair) is not None:
        pair, c = seen[pair]; out.append(c)
    return bytes(reversed(out))


def q_bisim(A, B, rel, name):
    """R is inductive for every byte and relates only states with the same accept information"""
    N = Names()
    L = A.defs() + B.defs() + relation_fun('R', rel.keys(), SW, SW)
    L += ['(declare-const p (_ BitVec %d))' % SW, '(declare-const q (_ BitVec %d))' % SW, '(declare-const c (_ BitVec 8))']
    pn, okA = A.step(N, 'p', 'c', 'a'); qn, okB = B.step(N, 'q', 'c', 'b')
    L += N.lines
    infoA = '(concat (ite %s #b1 #b0) %s)' % (A.dead('p'), A.kind('p')); infoB = '(concat (ite %s #b1 #b0) %s)' % (B.dead('q'), B.kind('q'))
    bad = OR('(not %s)' % okA, '(not %s)' % okB, '(not (R %s %s))' % (pn, qn), '(distinct %s %s)' % (infoA, infoB))
    L.append('(assert (or (not (R %s %s)) (and (R p q) %s)))' % (A.start, B.start, bad))
    return Query(name, L, 'unsat', ['p', 'q', 'c', pn, qn],
                 what='R (reachable product pairs, %d) contains the start pair, is closed under every byte for both step functions, and relates only '
                      'states with equal (dead?, token kind/SKIP/none)' % len(rel), bound='inputs of any length; %d pairs x 256 bytes' % len(rel),
                 meta={'pairs': len(rel)})


def q_bisim_sanity(A, B, rel, name, kinds):
    N = Names()
    L = A.defs() + B.defs() + relation_fun('R', rel.keys(), SW, SW)
    L += ['(declare-const p (_ BitVec %d))' % SW, '(declare-const q (_ BitVec %d))' % SW, '(declare-const c (_ BitVec 8))']
    pn, okA = A.step(N, 'p', 'c', 'a'); qn, okB = B.step(N, 'q', 'c', 'b')
    L += N.lines
    L.append('(assert (and (R p q) (R %s %s) %s %s (bvugt %s %s) (bvugt %s %s) (not %s) (distinct p %s)))' %
             (pn, qn, okA, okB, A.kind('p'), bv(3, KW), A.kind(pn), bv(3, KW), A.dead(pn), A.start))
    return Query(name, L, 'sat', ['p', 'q', 'c', pn, qn], what='vacuity guard: some related pair of token-accepting states has a live accepting successor')


def q_decomp(A, name, lo=None, hi=None, sanity=False):
    """the raw table walk (yy_ec, yy_base/yy_chk/yy_def/yy_meta default chain, yy_nxt; yy_try_NUL_trans for byte 0) is well
    defined and equals the decompressed transition function used by all other queries"""
    N = Names(); T = A.T
    lo = 1 if lo is None else lo; hi = T.nstates if hi is None else hi
    L = A.defs() + ['(declare-const s (_ BitVec %d))' % SW, '(declare-const c (_ BitVec 8))']
    nx, ok = A.raw_step(N, 's', 'c', 'w')
    L += N.lines
    rng = '(and (bvuge s %s) (bvult s %s))' % (S(lo), S(hi))
    if sanity:
        first_hit = next(l.split()[1] for l in N.lines if l.startswith('(declare-const wh_'))
        L.append('(assert (and %s %s (not %s) (distinct s %s) (distinct %s %s) (= %s (%s_delta s c))))' % (rng, ok, first_hit, A.deadc, nx, A.deadc, nx, A.p))
        return Query(name, L, 'sat', ['s', 'c', nx], what='vacuity guard: some transition really goes through the default chain')
    L.append('(assert (and %s (or (not %s) (distinct %s (%s_delta s c)))))' % (rng, ok, nx, A.p))
    return Query(name, L, 'unsat', ['s', 'c', nx], what='for every state in [%d,%d) and byte: the yy_chk/yy_def/yy_meta default chain ends within %d rounds, every table index '
                 'is in range, the successor is a state in 1..jam, and it equals the decompressed transition function' % (lo, hi, A.K),
                 bound='%d states x 256 bytes' % (hi - lo))


def q_total(A, name):
    """every single byte is matched by some user rule from the start state; default rule and empty match impossible"""
    N = Names()
    L = A.defs() + ['(declare-const c (_ BitVec 8))', '(declare-const s (_ BitVec %d))' % SW]
    nx, ok = A.step(N, A.start, 'c', 't')
    L += N.lines
    k = A.kind(nx)
    L.append('(assert %s)' % OR('(not %s)' % ok, A.dead(nx), '(bvule %s %s)' % (k, bv(0, KW)), '(= %s %s)' % (k, bv(2, KW)), '(= %s %s)' % (k, bv(3, KW)),
                                '(distinct (%s_accept %s) %s)' % (A.p, A.start, S(0)),
                                AND(A.valid('s'), OR('(= (%s_kind s) %s)' % (A.p, bv(2, KW)),
                                                     '(and (= (%s_kind s) %s) (distinct (%s_accept s) %s))' % (A.p, bv(0, KW), A.p, S(0))))))
    return Query(name, L, 'unsat', ['c', nx, 's'], what='from the start state every byte reaches a state that accepts a rule with a TOK/skip action (so every non-empty '
                 'input yields a token or a skip of length >= 1), the start state accepts nothing (no empty match), and no state carries the ECHO default rule or an action-less rule',
                 bound='256 bytes; all states')


def eol_monitor(A):
    """python candidate: reachable (state, seen-newline) pairs"""
    start = (A.py_start, 0); seen = {start: None}; q = deque([start])
    while q:
        s, n = q.popleft()
        for c in BYTE_ORDER:
            t = (A.py_step(s, c), 1 if (n or c == 10) else 0)
            if t not in seen:
                seen[t] = ((s, n), c); q.append(t)
    return seen


def q_eol_flex(A, mon, name):
    N = Names()
    L = A.defs() + relation_fun('M', mon.keys(), SW, 1)
    L += ['(declare-const s (_ BitVec %d))' % SW, '(declare-const n (_ BitVec 1))', '(declare-const c (_ BitVec 8))']
    nx, ok = A.step(N, 's', 'c', 'e')
    L += N.lines
    nn = '(ite (or (= n #b1) (= c #x0a)) #b1 #b0)'
    act = '(%s_accept s)' % A.p
    bad = OR('(not %s)' % ok, '(not (M %s %s))' % (nx, nn),
             AND('(= n #b1)', '(distinct %s %s)' % (act, S(0)), '(bvule %s %s)' % (act, S(A.T.num_rules)), '(= (%s_eol %s) %s)' % (A.p, act, S(0))))
    L.append('(assert (or (not (M %s #b0)) (and (M s n) %s)))' % (A.start, bad))
    return Query(name, L, 'unsat', ['s', 'n', 'c'], what='M (reachable (state, newline seen) pairs, %d) is inductive and every state reached by a text containing \\n accepts '
                 'only rules whose yy_rule_can_match_eol flag is set (so yylineno counts every matched newline)' % len(mon), bound='texts of any length')


def q_eol_rules(Lr, A, mon, name):
    """on the lexer.l DFA with full accept sets: every rule whose language contains \\n has its flag set in the tables"""
    N = Names(); T = A.T; nr = len(Lr.D.rules) + 1
    flags = sum(1 << r for r in range(1, nr) if T.eol is not None and T.lineno_loop and r < len(T.eol) and T.eol[r])
    L = Lr.defs() + relation_fun('M', mon.keys(), SW, 1)
    L += ['(declare-const s (_ BitVec %d))' % SW, '(declare-const n (_ BitVec 1))', '(declare-const c (_ BitVec 8))']
    nx, ok = Lr.step(N, 's', 'c', 'e')
    L += N.lines
    nn = '(ite (or (= n #b1) (= c #x0a)) #b1 #b0)'
    bad = OR('(not (M %s %s))' % (nx, nn), AND('(= n #b1)', '(distinct (bvand (%s_accmask s) (bvnot %s)) %s)' % (Lr.p, bv(flags, nr), bv(0, nr))))
    L.append('(assert (or (not (M %s #b0)) (and (M s n) %s)))' % (Lr.start, bad))
    return Query(name, L, 'unsat', ['s', 'n', 'c'], what='for every rule of lexer.l whose language (not only its winning matches) contains a text with \\n, '
                 'yy_rule_can_match_eol[rule] is set in the tables', bound='texts of any length')

def q_munch(A, B, N_, name, mode='seq', extra=None, pin=None):
    """symbolic string b[0..N), length len in 1..N, initial yylineno L0.
    flex side: the yylex driver loop unrolled over the tables (matching loop with last-accepting back-up, action of the
    backed-up state, yylineno loop), one instance per start offset, chained by reachability of the offsets.
    reference side: declarative longest match on the DFA of tokens.spec; line = L0 + newlines up to the token's end.
    mode 'first': only the first token; 'seq': every token of the stream."""
    T = A.T; N = Names(); BW = 8
    L = A.defs() + B.defs()
    for i in range(N_):
        L.append('(declare-const b%d (_ BitVec 8)) (assert (distinct b%d #x00))' % (i, i))     # strings as c_str() delivers them
    L += ['(declare-const len (_ BitVec 8))', '(declare-const L0 (_ BitVec %d))' % LW,
          '(assert (and (bvuge len #x01) (bvule len %s)))' % bv(N_, 8)]
    offs = range(N_) if mode == 'seq' else range(1)
    fk, fl, fdl, fcons, wf = {}, {}, {}, {}, []
    one, zero = bv(1, LW), bv(0, LW)
    for i in offs:
        s = A.start; reach = N.bool('(bvult %s len)' % bv(i, 8), 'f%dre' % i)
        la_s = S(0); la_p = bv(0, 8); cons = N.let('(_ BitVec 8)', bv(0, 8), 'f%dcons' % i)
        for j in range(N_ - i + 1):
            rec = N.bool('(and %s (distinct (%s_accept %s) %s))' % (reach, A.p, s, S(0)), 'f%drec' % i)
            la_s = N.bvs('(ite %s %s %s)' % (rec, s, la_s), 'f%dlas' % i)
            la_p = N.let('(_ BitVec 8)', '(ite %s %s %s)' % (rec, bv(j, 8), la_p), 'f%dlap' % i)
            if j == N_ - i:
                break
            rd = N.bool('(and %s (bvult %s len))' % (reach, bv(i + j, 8)), 'f%drd' % i)     # the byte at i+j is read
            nx, ok = A.step(N, s, 'b%d' % (i + j), 'f%d_%d' % (i, j))
            wf.append('(and %s (not %s))' % (rd, ok))
            cons = N.let('(_ BitVec 8)', '(ite %s %s %s)' % (rd, bv(j + 1, 8), cons), 'f%dcons' % i)
            reach = N.bool('(and %s (not %s))' % (rd, A.dead(nx)), 'f%dre' % i)
            s = nx
        act = N.bvs('(%s_accept %s)' % (A.p, la_s), 'f%dact' % i)
        fk[i] = N.let('(_ BitVec %d)' % KW, '(%s_rulekind %s)' % (A.p, act), 'f%dkind' % i)
        fl[i] = la_p; fcons[i] = cons
        nl = N.let('(_ BitVec %d)' % LW, '(bvadd %s)' % ' '.join([zero, zero] + ['(ite (and (bvult %s %s) (= b%d #x0a)) %s %s)' % (bv(k, 8), la_p, i + k, one, zero)
                                                                                 for k in range(N_ - i)]), 'f%dnl' % i)
        fdl[i] = N.let('(_ BitVec %d)' % LW, '(ite (distinct (%s_eol %s) %s) %s %s)' % (A.p, act, S(0), nl, zero), 'f%ddl' % i)
        fdl[(i, 'nl')] = nl
    # reference side
    spec = {}
    for i in offs:
        r = B.start; acc = {}
        for j in range(1, N_ - i + 1):
            r, _ = B.step(N, r, 'b%d' % (i + j - 1), 'r%d_%d' % (i, j))
            acc[j] = N.let('(_ BitVec %d)' % KW, B.kind(r), 'r%dacc' % i)
        cs = ['(bvuge %s #x01)' % fl[i], '(bvule (bvadd %s %s) len)' % (bv(i, 8), fl[i]), '(distinct %s %s)' % (fk[i], bv(0, KW))]
        for j in range(1, N_ - i + 1):
            cs.append('(=> (= %s %s) (= %s %s))' % (fl[i], bv(j, 8), acc[j], fk[i]))
            cs.append('(=> (and (bvult %s %s) (bvule %s len)) (= %s %s))' % (fl[i], bv(j, 8), bv(i + j, 8), acc[j], bv(0, KW)))
        spec[i] = N.bool(AND(*cs), 'spec%d' % i)
    # chaining of token boundaries, yylineno
    rch = {0: N.bool('true', 'rch0')}; yl = {0: 'L0'}; okv = {}
    for i in offs:
        if i > 0:
            lands = [N.bool('(and %s (= (bvadd %s %s) %s))' % (rch[k], bv(k, 8), fl[k], bv(i, 8)), 'land%d' % i) for k in range(i)]
            rch[i] = N.bool(OR(*lands), 'rch%d' % i)
            e = 'L0'
            for k in range(i):
                e = '(ite %s (bvadd %s %s) %s)' % (lands[k], yl[k], fdl[k], e)
            yl[i] = N.let('(_ BitVec %d)' % LW, e, 'yl%d' % i)
        pre = '(bvadd %s)' % ' '.join([zero, zero] + ['(ite (= b%d #x0a) %s %s)' % (k, one, zero) for k in range(i)])
        line_f = N.let('(_ BitVec %d)' % LW, '(bvadd %s %s)' % (yl[i], fdl[i]), 'linef%d' % i)
        line_s = N.let('(_ BitVec %d)' % LW, '(bvadd L0 %s %s)' % (pre, fdl[(i, 'nl')]), 'lines%d' % i)
        okv[i] = N.bool(AND(spec[i], '(= %s %s)' % (line_f, line_s)), 'ok%d' % i)
        fdl[(i, 'line')] = line_f
    L += N.lines
    active = {i: AND(rch[i], '(bvult %s len)' % bv(i, 8)) for i in offs}
    viol = OR(*(['(and %s (not %s))' % (active[i], okv[i]) for i in offs] + wf))
    values = ['len', 'L0'] + ['b%d' % i for i in range(N_)]
    for i in offs:
        values += [rch[i], fk[i], fl[i], fdl[(i, 'line')], fcons[i]]
    meta = {'N': N_, 'offs': list(offs), 'mode': mode}
    if pin is not None:
        L.append('(assert (and (= len %s) (= L0 %s) %s))' % (bv(len(pin), 8), bv(1, LW), ' '.join('(= b%d %s)' % (i, bv(pin[i] if i < len(pin) else 1, 8)) for i in range(N_))))
        return Query(name, L, 'sat', values, what='encoder validation: the unrolled driver evaluated by the solver on %r' % bytes(pin), meta=meta)
    if extra is not None:
        L.append('(assert (not %s))' % viol)
        L.append('(assert %s)' % extra(dict(rch=rch, fk=fk, fl=fl, fdl=fdl, fcons=fcons, active=active, N=N_, offs=list(offs))))
        return Query(name, L, 'sat', values, what='vacuity guard for the munch/lines unrolling', meta=meta)
    L.append('(assert %s)' % viol)
    return Query(name, L, 'unsat', values,
                 what=('every token of the stream' if mode == 'seq' else 'the first token') + ' produced by the unrolled yylex loop over the tables (kind, length, yylineno after the yylineno loop) '
                 'is the longest non-empty prefix matched by any rule of tokens.spec with the earliest rule\'s kind, and its line is L0 + number of \\n up to its last byte',
                 bound='all byte strings of length 1..%d (256^%d), any initial line' % (N_, N_), meta=meta)


def munch_decode(q, kinds):
    """solver model of a munch query -> (input bytes, [(kind, text, line)] as computed inside the SMT encoding)"""
    m = q.model; N_ = q.meta['N']; offs = q.meta['offs']
    vals = q.model_list
    ln = vals[0]; l0 = vals[1]; b = bytes(vals[2:2 + N_])[:ln]
    toks = []
    for n, i in enumerate(offs):
        rch, k, fl, line, cons = vals[2 + N_ + 5 * n: 2 + N_ + 5 * n + 5]
        if rch and i < ln:
            kn = kinds.name(k)
            if kn != SKIP:
                toks.append((kn, b[i:i + fl], ((line - l0) & ((1 << LW) - 1)) + 1))
    return b, toks

# ------------------------------------------------------------------------------------------------------------
# 4. running the solvers
# ------------------------------------------------------------------------------------------------------------

Z3PY = os.environ.get('VERIF_Z3PY', 'python3-vt')
SOLVERS = {'z3': lambda f, t: [Z3PY, os.path.abspath(__file__), '--z3', f, str(t)],
           # eager bit-blasting with the Boolean structure turned into bit-vectors: the ROM-style ite trees are hopeless for the lazy default
           'cvc5': lambda f, t: ['cvc5', '--lang=smt2', '--bitblast=eager', '--bool-to-bv=all', '--tlimit=%d' % (t * 1000), f]}


def z3_main(path, timeout):
    """runs under python3-vt (z3 python bindings): answer on the first line, then the model of all declared constants as JSON"""
    import z3
    s = z3.Solver(); s.set('timeout', int(timeout) * 1000)
    s.from_file(path)
    r = s.check()
    print(str(r) if str(r) != 'unknown' else 'unknown ' + s.reason_unknown())
    if r == z3.sat:
        m = s.model(); d = {}
        for decl in m.decls():
            if decl.arity() == 0:
                v = m[decl]
                d[decl.name()] = v.as_long() if z3.is_bv_value(v) else bool(z3.is_true(v))
        print(json.dumps(d))
    print('z3version ' + z3.get_version_string())


def run_solver(solver, path, timeout):
    t = time.time()
    try:
        p = subprocess.run(SOLVERS[solver](path, timeout), stdout=subprocess.PIPE, stderr=subprocess.STDOUT, text=True, timeout=timeout + 20)
        out = p.stdout
    except subprocess.TimeoutExpired:
        return 'timeout', time.time() - t, ''
    except FileNotFoundError:
        return 'missing', 0.0, ''
    w = time.time() - t
    first = out.strip().split('\n')[0].strip() if out.strip() else ''
    if '(error' in out or 'rror:' in out or 'Traceback' in out:
        return 'error', w, out[:600]
    if first in ('sat', 'unsat'):
        return first, w, out
    if 'timeout' in out or 'interrupted' in out or 'canceled' in out or first.startswith('unknown'):
        return 'timeout', w, out[:300]
    return 'error', w, out[:600]


def run_query(q, wd, timeout):
    """both solvers on the same text; the model comes from z3 when the answer is sat"""
    f = os.path.join(wd, q.name + '.smt2')
    open(f, 'w').write(q.text())
    with concurrent.futures.ThreadPoolExecutor(2) as ex:
        futs = {sv: ex.submit(run_solver, sv, f, timeout) for sv in ('z3', 'cvc5')}
        for sv, fu in futs.items():
            q.answers[sv], q.wall[sv], q.log[sv] = fu.result()
    if q.answers.get('z3') == 'sat':
        try:
            d = json.loads(q.log['z3'].split('\n')[1])
            q.model_list = [d.get(v, 0) for v in q.values]; q.model = d
        except Exception as e:
            q.model = None; q.log['z3-model'] = 'could not parse model: %s' % e
    try:
        os.remove(f)
    except OSError:
        pass
    return q

# ------------------------------------------------------------------------------------------------------------
# 5. the real scanner, natively
# ------------------------------------------------------------------------------------------------------------

DRIVER = r'''
// C14 native driver: the calls of create_scanner() in Compiler/src/scan.cpp, one scanner per input line (hex encoded)
#include "Compiler/include/lexer.hpp"
#include <cstdio>
#include <fstream>
#include <string>
int main(int argc, char **argv) {
  std::ifstream f(argv[1]); FILE *o = fopen(argv[2], "w"); std::string line;
  while (std::getline(f, line)) {
    std::string in;
    if (line != "-") for (size_t i = 0; i + 1 < line.size(); i += 2) in.push_back((char)std::stoi(line.substr(i, 2), nullptr, 16));
    Theo::ScannerInfo *si = new Theo::ScannerInfo{"F"};
    yyscan_t s; yylex_init(&s);
    YY_BUFFER_STATE b = in.find('\0') == std::string::npos ? yy_scan_string(in.c_str(), s) : yy_scan_bytes(in.data(), (int)in.size(), s);
    yyset_lineno(1, s); yyset_extra(si, s);
    Theo::Token t; long n = 0;
    while (yylex(&t, s) != 0 && n++ < 100000) {
      fprintf(o, "T %d %d %s ", (int)t.t, t.line, t.file.c_str());
      for (unsigned char c : t.text) fprintf(o, "%02x", c);
      fprintf(o, "\n");
    }
    fprintf(o, "E\n");
    yy_delete_buffer(b, s); yylex_destroy(s); delete si;
  }
  fclose(o); return 0;
}
'''


def token_enum(path):
    src = open(path).read()
    m = re.search(r'enum\s+Type\s*\{(.*?)\}', src, re.S)
    names = {}; v = -1
    for item in re.sub(r'//[^\n]*', '', m.group(1)).split(','):
        item = item.strip()
        if not item:
            continue
        mm = re.match(r'(\w+)\s*(?:=\s*(\d+))?$', item)
        v = int(mm.group(2)) if mm.group(2) is not None else v + 1
        names[v] = mm.group(1)
    return names


def build_native(wd, tag, lex_c, repo, hdr_root=None):
    """g++ the given lex.yy.c (as C++) with the driver; returns the executable path"""
    os.makedirs(wd, exist_ok=True)
    drv = os.path.join(wd, 'driver_%s.cpp' % tag); exe = os.path.join(wd, 'scan_%s' % tag)
    open(drv, 'w').write(DRIVER)
    cmd = ['g++', '-std=c++20', '-O1', '-w'] + (['-I' + hdr_root] if hdr_root else []) + ['-I' + repo, '-I' + os.path.join(repo, 'Compiler', 'include'),
                                                                                       '-x', 'c++', lex_c, drv, '-o', exe]
    p = subprocess.run(cmd, stdout=subprocess.PIPE, stderr=subprocess.STDOUT, text=True)
    if p.returncode != 0:
        raise Unsupported('native build of %s failed: %s' % (lex_c, p.stdout[-600:]))
    return exe


def run_native(exe, strings, enum, wd, tag='n'):
    fi = os.path.join(wd, 'in_%s.txt' % tag); fo = os.path.join(wd, 'out_%s.txt' % tag)
    open(fi, 'w').write(''.join((bytes(s).hex() or '-') + '\n' for s in strings))
    p = subprocess.run([exe, fi, fo], stdout=subprocess.PIPE, stderr=subprocess.STDOUT, text=True, timeout=120)
    if p.returncode != 0:
        raise Unsupported('native scanner exited with %d: %s' % (p.returncode, p.stdout[-300:]))
    res = []; cur = []
    for l in open(fo):
        if l.startswith('E'):
            res.append(cur); cur = []
        else:
            _, k, line, fn, hx = (l.rstrip('\n').split(' ') + [''])[:5]
            cur.append((enum.get(int(k), '?%s' % k), bytes.fromhex(hx), int(line)) if fn == 'F' else ('BAD_FILE_LABEL', bytes.fromhex(hx), int(line)))
    if len(res) != len(strings):
        raise Unsupported('native scanner produced %d results for %d inputs' % (len(res), len(strings)))
    return res


def run_flex(lexer_l, wd):
    """the 'flex found' configuration: the command of Compiler/CMakeLists.txt in a scratch directory"""
    if not shutil.which('flex'):
        return None
    g = os.path.join(wd, 'gen'); os.makedirs(os.path.join(g, 'Compiler', 'include'), exist_ok=True)
    out_c = os.path.join(g, 'lex.yy.c'); out_h = os.path.join(g, 'Compiler', 'include', 'lex.yy.h')
    p = subprocess.run(['flex', '--outfile=' + out_c, '--header-file=' + out_h, '--noline', '--nounistd', lexer_l], stdout=subprocess.PIPE,
                       stderr=subprocess.STDOUT, text=True, cwd=g)
    if p.returncode != 0 or not os.path.exists(out_c):
        raise Unsupported('flex failed on %s: %s' % (lexer_l, p.stdout[-400:]))
    return out_c, g


def c_string_literals(path):
    src = open(path, encoding='latin-1').read().replace('\\\n', '')
    out = []
    for m in re.finditer(r'"((?:[^"\\\n]|\\.)*)"', src):
        try:
            b = m.group(1).encode('latin-1').decode('unicode_escape').encode('latin-1')
        except Exception:
            continue
        if len(b) >= 2:
            out.append(b)
    return out


HANDWRITTEN = [
    b'PROGRAM Program program PROG Prog prog IN In in OUT Out out DO Do do LOOP Loop loop WHILE While while GOTO Goto goto IF If if THEN Then then '
    b'STOP Stop stop END End end RUN Run run WITH With with INCLUDE Include include DEFINE Define Def define def AS As as '
    b'PRIORITY Priority priority PRIO Prio prio END DEFINE End Define end define ENDDEF Enddef enddef VALUE Value value VAL Val val',
    b'<PROGRAM> <Program> <program> <PROG> <Prog> <prog> <P> <p> <VALUE> <Value> <value> <VAL> <Val> <val> <V> <v> <ID> <id> <INT> <Int> <int> '
    b'<ARGS> <Args> <args> <A> <a> <Id> <x> < > <PROGRAM',
    b'PROGRAM add IN x0, x1 OUT x2 DO\n  x2 := x0 + 0;\n  LOOP x1 DO x2 := x2 + 1 END;\n  // comment := LOOP "x\n  WHILE x2 != 0 DO x2 := x2 - 1 END\nEND\n',
    b'M1: IF x0 = 0 THEN GOTO M2;\nM2: STOP\n$0 $12 $012 #1 #10 #01 007 0 10 _a a_1 A9 9a\n',
    b'INCLUDE "file name.theo"\nInclude "a\nb" include "" "unterminated\n',
    b'DEFINE <ID> := <ID> + <INT> AS $0 := $1 + $2 PRIORITY 10 END DEFINE\nEnd  Define END\nDEFINE END\tDEFINE ENDDEFINE',
    b'!= 0 !=0 != 1 !=  0 ! = :=: :: = == a!= 0b', b'@ \x7f \x80\xff\x01 ~ ` [ ] { } + - * / // /', b'//only comment', b'// c1\n// c2\n\n\nx // c3',
    b'\n\n\n', b' \t \n', b'a', b'', b'"', b'""', b'"\n\n"x', b'Progx progprog PROGRAMs ENDE ENDDEFx END DEFINEx END DEFIN END  DEFINE', b'RUN p WITH 1,2 ; run P with (3)',
    b'x\r\ny\r\n', b'\tIF\tx\t!= 0\tTHEN', b'<<ID>> <ID <I <PRO> <VALU> <ARGS', b'$ # $a #b $-1', b'0123 00 1e5 0x10',
]


def corpus(repo, seed, count):
    import random
    out = list(HANDWRITTEN)
    td = os.path.join(repo, 'Compiler', 'test')
    if os.path.isdir(td):
        for f in sorted(os.listdir(td)):
            if f.endswith('.cpp'):
                out += c_string_literals(os.path.join(td, f))
    rnd = random.Random(seed)
    frag = [b'PROG', b'Prog', b'prog', b'RAM', b'ram', b'END', b' ', b' ', b'DEFINE', b'Define', b'\n', b'\t', b'<', b'>', b'ID', b'id', b'INT', b'P', b'V', b'A', b'ARGS', b'!', b'=', b'= 0',
            b'!= 0', b':', b':=', b';', b',', b'(', b')', b'"', b'//', b'/', b'$', b'#', b'0', b'1', b'9', b'a', b'_', b'x1', b'IF', b'If', b'LOOP', b'Do', b'WHILE', b'val', b'VALUE',
            b'include', b'def', b'as', b'prio', b'PRIORITY', b'run', b'with', b'in', b'out', b'goto', b'then', b'stop', b'end define', b'End Define', b'enddef', b'\xe4', b'@', b'\x00']
    for _ in range(count):
        out.append(b''.join(rnd.choice(frag) for _ in range(rnd.randint(1, 12))))
    seen = set(); res = []
    for s in out:
        if s not in seen:
            seen.add(s); res.append(s)
    return res


def tok_json(toks):
    return [{'kind': k, 'text': list(t), 'line': l} for (k, t, l) in toks]


def tok_str(toks):
    return ' '.join('%s(%s)@%d' % (k, t.decode('latin-1').encode('unicode_escape').decode(), l) for (k, t, l) in toks)

# ------------------------------------------------------------------------------------------------------------
# 6. the check
# ------------------------------------------------------------------------------------------------------------

TOK_RE = r'\{\s*\*ret\s*=\s*Theo::Token\(\s*t\s*,\s*std::string\(\s*yytext\s*\)\s*,\s*yyextra->filename\s*,\s*yylineno\s*\)\s*;\s*return\s+1\s*;\s*\}'
DECL_RE = r'int\s+yylex\s*\(\s*Theo::Token\s*\*\s*ret\s*,\s*yyscan_t\s+yyscanner\s*\)'
SUFFIXES = [b'', b'(', b' (', b'\n(', b'a', b' a', b'\n', b'"', b'\n"(']


def text_checks(objs, repo):
    """TOK / YY_DECL are compared structurally (assumption check, not a solver result)"""
    bad = []
    for nm, o in objs:
        if o is None:
            continue
        if not o.tok_macro or not re.fullmatch(TOK_RE, o.tok_macro):
            bad.append('%s: TOK macro is not {*ret = Theo::Token(t, std::string(yytext), yyextra->filename, yylineno); return 1;}: %r' % (nm, o.tok_macro))
        if not o.yy_decl or not re.fullmatch(DECL_RE, o.yy_decl):
            bad.append('%s: YY_DECL is not int yylex(Theo::Token *ret, yyscan_t yyscanner): %r' % (nm, o.yy_decl))
    try:
        h = open(os.path.join(repo, 'Compiler', 'include', 'lexer.hpp')).read()
        m = re.search(r'^#define YY_DECL\s+(.*)$', h, re.M)
        if not m or not re.fullmatch(DECL_RE, m.group(1).strip()):
            bad.append('lexer.hpp: YY_DECL differs')
    except OSError:
        bad.append('lexer.hpp not readable')
    return bad


def find_mismatch(A, B, seen, frm, limit=200000):
    """BFS in the product from a pair to a pair whose token kinds differ -> byte string or None"""
    q = deque([(frm, b'')]); vis = {frm}
    while q:
        (p, r), w = q.popleft()
        if A.py_kind(p) != B.py_kind(r):
            return w
        for c in BYTE_ORDER:
            n = (A.py_step(p, c), B.py_step(r, c))
            if n not in vis and len(vis) < limit:
                vis.add(n); q.append((n, w + bytes([c])))
    return None


def run_all(tier='quick', wd=None, seed=0, repo=None, spec=SPEC, lex_c=None, lexer_l=None, log=None):
    """-> dict for props/c14.py.  Every path can be overridden (mutation tests)."""
    t_start = time.time()
    P = repo_paths(repo); repo = P['repo']
    lex_c = lex_c or P['lex_c']; lexer_l = lexer_l or P['lexer_l']
    own_wd = wd is None
    wd = wd or os.path.join(VERIF, 'build', 'lex.%d' % os.getpid())
    os.makedirs(wd, exist_ok=True)
    cap = 120 if tier == 'quick' else 600
    res = {'inconclusive': [], 'violations': [], 'obligations': 0, 'discharged': 0, 'witness_ok': 0, 'queries': 0, 'solver_s': 0.0, 'samples': [],
           'coverage': {}, 'assumption_checks': [], 'disagreements': 0, 'notes': [], 'functions': ['yylex (tables, matching loop, yylineno loop, action switch)', 'yy_try_NUL_trans']}
    say = (lambda m: (print('[lexenc %.0fs] %s' % (time.time() - t_start, m), file=sys.stderr, flush=True))) if log else (lambda m: None)
    try:
        _run(res, tier, wd, seed, repo, spec, lex_c, lexer_l, cap, P, say)
    except Unsupported as e:
        res['inconclusive'].append('encoder: ' + str(e))
        # the tables / rules use a flex construct the encoder does not cover (e.g. trailing context): no solver verdict.  The real scanner(s) are still
        # compared natively with the fixed specification on the corpus and on every string of <= 4 bytes over a small alphabet; a difference found
        # this way reproduces by construction and is reported (as what it is: testing, not a solver result).
        try:
            _fallback_native(res, tier, wd, seed, repo, spec, lex_c, lexer_l, P)
        except Exception as ex:
            res['notes'].append('native fallback not possible: %s' % str(ex)[:200])
    finally:
        res['max_rss'] = resource.getrusage(resource.RUSAGE_CHILDREN).ru_maxrss // 1024
        if own_wd:
            shutil.rmtree(wd, ignore_errors=True)
    res['wall_s'] = round(time.time() - t_start, 1)
    return res


def _fallback_native(res, tier, wd, seed, repo, spec, lex_c, lexer_l, P):
    S_d = compile_spec(spec); enum = token_enum(P['token_hpp'])
    exes = {'committed': build_native(wd, 'committed', lex_c, repo)}
    if shutil.which('flex'):
        gen = run_flex(lexer_l, wd)
        exes['regenerated'] = build_native(wd, 'regenerated', gen[0], repo, gen[1])
    alpha = [b'a', b'1', b' ', b'\n', b'/', b'"', b':', b'=']
    short = [b''.join(t) for n in range(0, 5) for t in itertools.product(alpha, repeat=n)]
    strings = corpus(repo, seed, 300 if tier == 'quick' else 3000) + short
    seen = 0
    for impl, exe in exes.items():
        native = run_native(exe, strings, enum, wd, impl)
        for s_, nt in zip(strings, native):
            rt = cstr_view(ref_tokens(S_d, s_), s_)
            if rt != nt:
                seen += 1
                if seen <= 3:
                    res['violations'].append({'config': impl, 'comparison': 'corpus_vs_spec', 'origin': 'native comparison after an unsupported scanner construct (testing, not a solver result)',
                                              'input': list(s_), 'expected': tok_json(rt), 'got': tok_json(nt),
                                              'assertion': 'corpus_vs_spec: on %r expected %s but the %s scanner yields %s' % (s_[:30], tok_str(rt)[:120], impl, tok_str(nt)[:120])})
    res['coverage']['native_fallback'] = {'strings': len(strings), 'scanners': sorted(exes), 'differences': seen}


def _run(res, tier, wd, seed, repo, spec, lex_c, lexer_l, cap, P, say):
    cov = res['coverage']
    A_t = FlexTables(lex_c); A_t.max_chain()
    L_d = compile_lexer_l(lexer_l); S_d = compile_spec(spec)
    enum = token_enum(P['token_hpp'])
    pool = concurrent.futures.ThreadPoolExecutor(8)
    # configuration "flex found"
    G_t = None; gen = None
    if shutil.which('flex'):
        gen = run_flex(lexer_l, wd)
        G_t = FlexTables(gen[0]); G_t.max_chain()
        cov['regenerated_identical_text'] = open(gen[0], 'rb').read() == open(lex_c, 'rb').read()
    cov.update({'flex_found': G_t is not None, 'lex_yy_c_sha': A_t.sha, 'lexer_l_sha': L_d.sha, 'tokens_spec_sha': S_d.sha,
                'dfa_sizes': {'lex.yy.c': A_t.nstates - 1, 'lexer.l': L_d.n, 'tokens.spec': S_d.n, 'regenerated': (G_t.nstates - 1) if G_t else None},
                'rules': {'lex.yy.c': A_t.num_rules, 'lexer.l': len(L_d.rules), 'tokens.spec': len(S_d.rules)}, 'default_chain_unroll': A_t.chain + 1})
    # native builds in the background
    fut_nat = {'committed': pool.submit(build_native, wd, 'committed', lex_c, repo)}
    if G_t:
        fut_nat['regenerated'] = pool.submit(build_native, wd, 'regenerated', gen[0], repo, gen[1])
    # assumption checks on the texts
    bad = text_checks([('lex.yy.c', A_t), ('lexer.l', L_d), ('regenerated lex.yy.c', G_t)], repo)
    if 'yylineno' not in L_d.options:
        bad.append('lexer.l: %option yylineno missing')
    res['assumption_checks'] = [{'check': 'TOK builds the token from yytext, yyextra->filename, yylineno; YY_DECL as in lexer.hpp; %option yylineno', 'failed': bad}]
    kinds = KindIds()
    for o in (A_t, G_t):
        if o:
            kinds.add(o.actions.values())
    kinds.add(L_d.rule_kind); kinds.add(S_d.rule_kind)
    enum_names = set(enum.values())
    for k in kinds.ids:
        if k not in (NONE, SKIP, ECHO, EOB) and k not in enum_names:
            res['notes'].append('kind %s is not an enumerator of Theo::Token::Type' % k)
    A = FlexSMT(A_t, 'A', kinds); Lr = RefSMT(L_d, 'L', kinds); Sr = RefSMT(S_d, 'S', kinds)
    G = FlexSMT(G_t, 'G', kinds) if G_t else None
    impls = [('committed', A)] + ([('regenerated', G)] if G else [])
    N_ = 6 if tier == 'quick' else 10
    NSEQ = 4 if tier == 'quick' else 6
    cov['bounds'] = {'munch_first_token_bytes': N_, 'munch_stream_bytes': NSEQ, 'bisimulation': 'unbounded (inductive)', 'alphabet': 'all 256 byte values'}
    # --- queries
    Q = []          # (query, handler info)
    rels = {}

    def add(q, **info):
        Q.append((q, info)); return q
    comps = [('tables_vs_lexer_l', A, Lr, 'committed'), ('tables_vs_spec', A, Sr, 'committed')]
    if G:
        comps += [('tables_vs_regenerated', A, G, 'committed'), ('regenerated_vs_spec', G, Sr, 'regenerated')]
    for nm, X, Y, impl in comps:
        rel = product_relation(X, Y); rels[nm] = rel
        add(q_bisim(X, Y, rel, 'bisim_' + nm), type='bisim', X=X, Y=Y, rel=rel, impl=impl, comp=nm)
        add(q_bisim_sanity(X, Y, rel, 'bisim_' + nm + '_sanity', kinds), type='sanity_bisim', X=X, Y=Y, rel=rel, impl=impl)
    cov['states'] = sum(len(r) for r in rels.values()); cov['transitions'] = cov['states'] * 256
    cov['relation_sizes'] = {k: len(v) for k, v in rels.items()}
    for impl, F in impls:
        n = F.T.nstates; step = (n + 3) // 4
        for k, lo in enumerate(range(1, n, step)):
            add(q_decomp(F, 'decomp_%s_%d' % (impl, k), lo, min(n, lo + step)), type='decomp', F=F, impl=impl)
        add(q_decomp(F, 'decomp_%s_sanity' % impl, sanity=True), type='sanity')
        add(q_total(F, 'total_' + impl), type='total', F=F, impl=impl)
        mon = eol_monitor(F)
        add(q_eol_flex(F, mon, 'eol_flags_' + impl), type='eol', F=F, impl=impl, mon=mon)
        if len(L_d.rules) + 1 == F.T.num_rules:
            add(q_eol_rules(Lr, F, eol_monitor(Lr), 'eol_rules_' + impl), type='eolrules', F=F, impl=impl)
        else:
            res['notes'].append('rule count of lexer.l (%d) + default rule != YY_NUM_RULES (%d) of %s: per-rule eol query skipped (the bisimulation decides)' % (len(L_d.rules), F.T.num_rules, impl))
        add(q_munch(F, Sr, N_, 'munch_first_%s_N%d' % (impl, N_), mode='first'), type='munch', F=F, impl=impl)
        add(q_munch(F, Sr, NSEQ, 'munch_stream_%s_N%d' % (impl, NSEQ), mode='seq'), type='munch', F=F, impl=impl)
        add(q_munch(F, Sr, NSEQ, 'munch_%s_sanity_backup' % impl, mode='seq',
                    extra=lambda d: AND('(= len %s)' % bv(d['N'], 8), OR(*['(and %s (bvuge %s (bvadd %s #x02)) (bvuge %s #x01))' % (d['active'][i], d['fcons'][i], d['fl'][i], d['fl'][i]) for i in d['offs']]))),
            type='sanity_munch', F=F, impl=impl)
        add(q_munch(F, Sr, NSEQ, 'munch_%s_sanity_newline' % impl, mode='seq',
                    extra=lambda d: OR(*['(and %s (bvuge %s #x03) (distinct %s %s) (distinct %s %s))' % (d['active'][i], d['fl'][i], d['fdl'][i], bv(0, LW), d['fk'][i], bv(1, KW)) for i in d['offs'] if i >= 1])),
            type='sanity_munch', F=F, impl=impl)
        for k, pin in enumerate([b'IF a', b'a:=1', b'!= 0', b'"\n"x', b'//\ny', b'Prog', b'<ID>', b'$0#1', b'EN D', b'\n\n(', b'=!=\xff'][:11 if tier != 'quick' else 6]):
            add(q_munch(F, Sr, NSEQ, 'munch_%s_pin%d' % (impl, k), mode='seq', pin=pin[:NSEQ]), type='pin', F=F, impl=impl, pin=pin[:NSEQ])
    say('%d queries generated' % len(Q))
    futs = [pool.submit(run_query, q, wd, cap) for (q, _) in Q]
    # --- encoder validation against the real yylex while the solvers run
    exes = {}
    for k, f in fut_nat.items():
        exes[k] = f.result()
    strings = corpus(repo, seed, 300 if tier == 'quick' else 3000)
    native = {k: run_native(exes[k], strings, enum, wd, k) for k in exes}
    traces = len(strings) * len(exes)
    corpus_cands = []
    model_mismatch = []; candidates = []     # candidates: (comparison, impl, input, expected, origin)
    for impl, F in impls:
        for s_, nt in zip(strings, native[impl]):
            mt = cstr_view(flex_tokens(F.T, s_), s_)
            if mt != nt:
                model_mismatch.append('%s scanner on %r: model %s / yylex %s' % (impl, s_[:40], tok_str(mt)[:200], tok_str(nt)[:200]))
            rt = cstr_view(ref_tokens(S_d, s_), s_)
            if rt != nt:
                corpus_cands.append(('corpus_vs_spec', impl, s_, rt, 'corpus string (testing, not a solver result)'))
    say('native validation done (%d strings)' % traces)
    for f in futs:
        f.result()
    say('solvers done')
    # --- verdicts
    extra_native = []   # (impl, bytes) strings produced by the solvers, run natively afterwards
    for q, info in Q:
        a = q.answers; res['queries'] += len(a); res['solver_s'] += sum(q.wall.values())
        samp = {'obligation': q.name, 'what': q.what, 'bounds': q.bound, 'expected': q.expect, 'answers': a, 'wall_s': {k: round(v, 2) for k, v in q.wall.items()}}
        res['samples'].append(samp)
        bad_ans = [s_ for s_, v in a.items() if v not in ('sat', 'unsat')]
        if bad_ans:
            res['inconclusive'].append('%s: %s' % (q.name, '; '.join('%s %s after %.0fs %s' % (s_, a[s_], q.wall[s_], q.log.get(s_, '')[:200].replace('\n', ' ')) for s_ in bad_ans)))
            continue
        if len(set(a.values())) != 1:
            res['disagreements'] += 1
            res['inconclusive'].append('%s: solvers disagree %s' % (q.name, a)); continue
        ans = a['z3']
        t = info['type']
        if q.expect == 'unsat':
            res['obligations'] += 1
            if ans == 'unsat':
                res['discharged'] += 1; continue
            if q.model is None:
                res['inconclusive'].append('%s: sat but no model (%s)' % (q.name, q.log.get('z3-model', ''))); continue
            m = q.model_list; samp['model'] = m
            F = info.get('F'); impl = info.get('impl')
            if t == 'bisim':
                X, Y, rel = info['X'], info['Y'], info['rel']; p, r, c = m[0], m[1], m[2]
                if (p, r) not in rel:
                    res['inconclusive'].append('%s: witness (%d,%d) is not in R (start pair not in R?)' % (q.name, p, r)); continue
                w = path_to(rel, (p, r)); frm = (p, r)
                if (X.py_dead(p), X.py_kind(p)) == (Y.py_dead(r), Y.py_kind(r)):
                    frm = (X.py_step(p, c), Y.py_step(r, c))
                    if frm in rel:
                        res['disagreements'] += 1
                        res['inconclusive'].append('%s: solver witness p=%d q=%d c=%d is not a counterexample in the python model (encoding disagreement)' % (q.name, p, r, c)); continue
                    w += bytes([c])
                ext = find_mismatch(X, Y, rel, frm)
                base = w + (ext or b'')
                ref = (lambda s_, Y=Y: flex_tokens(Y.T, s_)) if isinstance(Y, FlexSMT) else (lambda s_, Y=Y: ref_tokens(Y.D, s_))
                cand = [base + sfx for sfx in SUFFIXES]
                candidates.append((info['comp'], impl, cand, ref, 'solver witness p=%d q=%d c=%d' % (p, r, c)))
            elif t == 'eol':
                s_, n_, c = m[0], m[1], m[2]; mon = info['mon']
                if (s_, n_) not in mon:
                    res['inconclusive'].append('%s: witness not in M' % q.name); continue
                w = path_to(mon, (s_, n_))
                candidates.append((q.name, impl, [w + sfx for sfx in SUFFIXES] + [w + bytes([c]) + sfx for sfx in SUFFIXES], lambda x: ref_tokens(S_d, x), 'solver witness state=%d nl=%d c=%d' % (s_, n_, c)))
            elif t == 'eolrules':
                res['notes'].append('%s: a rule of lexer.l can match \\n without its flag (witness DFA state %d); observable only through eol_flags / munch' % (q.name, m[0]))
                res['inconclusive'].append('%s: sat (flag missing for a rule whose language contains \\n); no observable difference derived' % q.name)
            elif t == 'total':
                candidates.append((q.name, impl, [bytes([m[0]]) + sfx for sfx in SUFFIXES], lambda x: ref_tokens(S_d, x), 'solver witness byte %d' % m[0]))
            elif t == 'munch':
                b, toks = munch_decode(q, kinds)
                candidates.append((q.name, impl, [b], lambda x: ref_tokens(S_d, x), 'solver model %r' % b))
            elif t == 'decomp':
                res['disagreements'] += 1
                res['inconclusive'].append('%s: the unrolled table walk and the python decompression differ at state %d byte %d (encoder problem)' % (q.name, m[0], m[1]))
        else:
            if ans != 'sat' or q.model is None:
                res['inconclusive'].append('%s: vacuity guard not satisfiable (%s)' % (q.name, ans)); continue
            m = q.model_list; ok = True
            if t == 'sanity_bisim':
                X, Y, rel = info['X'], info['Y'], info['rel']
                if (m[0], m[1]) in rel:
                    extra_native.append((info['impl'], path_to(rel, (m[0], m[1])) + bytes([m[2]])))
                else:
                    ok = False
            elif t in ('sanity_munch', 'pin'):
                b, toks = munch_decode(q, kinds)
                if t == 'pin' and b != info['pin']:
                    ok = False
                extra_native.append((info['impl'], b, toks, q.name))
            if ok:
                res['witness_ok'] += 1
            else:
                res['inconclusive'].append('%s: model of the vacuity guard is not consistent with the python model' % q.name)
    # --- solver-produced strings through the real yylex
    flat = []
    for c in candidates:
        if isinstance(c[2], list):
            flat += [(c[1], s_) for s_ in c[2]]
    flat += [(e[0], e[1]) for e in extra_native]
    nat2 = {}
    for impl in exes:
        ss = [s_ for (i, s_) in flat if i == impl]
        if ss:
            for s_, nt in zip(ss, run_native(exes[impl], ss, enum, wd, impl + '2')):
                nat2[(impl, s_)] = nt
            traces += len(ss)
    for e in extra_native:
        impl, b = e[0], e[1]; F = dict(impls)[impl]
        nt = nat2[(impl, b)]; mt = cstr_view(flex_tokens(F.T, b), b)
        if mt != nt:
            model_mismatch.append('%s scanner on solver string %r: model %s / yylex %s' % (impl, b, tok_str(mt), tok_str(nt)))
        if len(e) > 2 and e[2] != nt:
            model_mismatch.append('%s: tokens computed inside the SMT encoding for %r: %s / yylex %s' % (e[3], b, tok_str(e[2]), tok_str(nt)))
    # solver witnesses first; of the differences seen while validating on the corpus only the two shortest per build
    for impl in exes:
        candidates += sorted([c for c in corpus_cands if c[1] == impl], key=lambda c: len(c[2]))[:2]
    cov['corpus_strings_differing_from_spec'] = len(corpus_cands)
    for comp, impl, inp, ref, origin in candidates:
        if isinstance(inp, list):
            hit = None
            for s_ in inp:
                nt = nat2[(impl, s_)]; F = dict(impls)[impl]
                if cstr_view(flex_tokens(F.T, s_), s_) != nt:
                    model_mismatch.append('%s scanner on counterexample %r: model and yylex differ' % (impl, s_))
                if cstr_view(ref(s_), s_) != nt:
                    hit = (s_, cstr_view(ref(s_), s_), nt); break
            if hit is None:
                res['disagreements'] += 1
                res['inconclusive'].append('%s: %s did not lead to an input on which the real yylex (%s build) differs from the reference' % (comp, origin, impl)); continue
            s_, exp, got = hit
        else:
            s_, exp = inp, ref; got = native[impl][strings.index(s_)]
        res['violations'].append({'comparison': comp, 'config': impl, 'input': list(s_), 'expected': tok_json(exp), 'got': tok_json(got), 'origin': origin,
                                  'assertion': '%s: on %r expected [%s] but the %s scanner yields [%s]' % (comp, s_, tok_str(exp)[:300], impl, tok_str(got)[:300])})
    # one report per distinct (config, input); at most 12
    seen = set(); vs = []
    for v in res['violations']:
        k = (v['config'], bytes(v['input']))
        if k not in seen:
            seen.add(k); vs.append(v)
    res['violations'] = vs[:12]
    if model_mismatch:
        res['disagreements'] += len(model_mismatch)
        res['inconclusive'].append('encoder validation failed: table model and real yylex differ on %d inputs, e.g. %s' % (len(model_mismatch), model_mismatch[0][:400]))
    if bad:
        res['inconclusive'].append('assumption check failed: ' + '; '.join(bad)[:600])
    cov['traces_validated_against_impl'] = traces
    cov['corpus_strings'] = len(strings)
    pool.shutdown()


if __name__ == '__main__':
    if len(sys.argv) >= 4 and sys.argv[1] == '--z3':
        z3_main(sys.argv[2], sys.argv[3]); sys.exit(0)
    import argparse
    ap = argparse.ArgumentParser()
    ap.add_argument('--tier', default='quick'); ap.add_argument('--repo'); ap.add_argument('--lex-c'); ap.add_argument('--lexer-l'); ap.add_argument('--spec', default=SPEC)
    a = ap.parse_args()
    r = run_all(a.tier, None, 0, a.repo, a.spec, a.lex_c, a.lexer_l, log=True)
    for s in r['samples']:
        print('%-40s %-6s %s %s' % (s['obligation'], s['expected'], s['answers'], s['wall_s']))
    print(json.dumps({k: v for k, v in r.items() if k != 'samples'}, indent=1, default=str))
